"""C06 - every reported location denotes exactly the text of its node.

(M) spec/LocFindMC.tla: the brute-force by-location search definitions (spec/LocFind.tla) are well-defined on every
    well-formed span tree within the constants, and the loops of fst.py compute them in every mode (trees
    with decorator children included; no named deviation).
(V) every node of every corpus program x layout variant (+ multi-byte mutators, + trees after edit steps) is recorded
    (pfst's loc / bloc / pars() / byte accessors + CPython positions + tokenize tokens) and judged by TLC against
    spec/LocLaws.tla; find_* answers for node spans, token gaps and random rectangles are judged against spec/LocFind.tla
    evaluated over the recorded node table (spec/LocTrace.tla).
"""

from __future__ import annotations

import concurrent.futures as cf
import json
import multiprocessing as mp
import random

from checks import common

NODE_CLAUSES = ['ByteCharAgree.loc', 'ByteCharAgree.attrs', 'Tight', 'OracleTokenBoundary', 'OpText', 'NoLoc', 'RootLoc',
                'Computed.comprehension', 'Computed.withitem', 'Computed.match_case', 'Computed.arguments', 'Bloc',
                'HasOwnLoc', 'Pars', 'Pars.unshared', 'Nested', 'Ordered', 'OrderOracle']
FIND_CLAUSES = ['Find.in', 'Find.contains', 'Find.contains_noexact', 'Find.contains_top', 'Find.loc', 'Find.loc_top']
N_MUT = 3  # multi-byte mutator variants appended to the layouts.N_VARIANTS layout variants


def source_of(kind, idx):
    from corpus.programs import PROGRAMS
    from harness import c06_locs as L
    return PROGRAMS[idx] if kind == 'corpus' else L.C06_EXTRA[idx]


def variant_src(kind, idx, v, seed):
    """Deterministic variant v of a source: 0..7 harness/layouts.py, 8.. the multi-byte mutators of harness/c06_locs.py."""
    from harness import c06_locs as L, layouts
    src = source_of(kind, idx)
    nv = layouts.N_VARIANTS
    if v < nv:
        return layouts.variant(src, v, seed)
    rng = random.Random(seed * 131 + v)
    if v == nv:
        return L.multibyte(src, rng, 0.6)
    if v == nv + 1:
        return L.prefix_statements(L.multibyte(src, rng, 0.4), rng)
    return L.prefix_statements(L.multibyte(layouts.variant(src, 7, seed), rng, 0.5), rng, 0.25)


def _snap_shard(args):
    """Worker: fresh trees. items = [(tid, kind, idx, variant, seed)]."""
    items, q = args
    from harness import c06_locs as L
    traces, scripts = [], {}
    seen_src = set()
    for tid, kind, idx, v, seed in items:
        src = variant_src(kind, idx, v, seed)
        if src in seen_src:
            continue
        seen_src.add(src)
        rng = random.Random(seed * 7919 + tid)
        tr = L.snapshot_trace(tid, src, rng, q['random'], from_inner=q['inner'], max_spans=q['spans'], max_gaps=q['gaps'],
                              meta={'kind': kind, 'idx': idx, 'variant': v})
        if tr is None:
            continue
        traces.append(tr)
        scripts[tid] = {'driver': 'snapshot', 'tid': tid, 'kind': kind, 'idx': idx, 'variant': v, 'seed': seed, 'q': q, 'src': src}
    return L.batch(traces), scripts


def _hist_shard(args):
    """Worker: trees after edit steps (harness/histories.run_history with a post hook). specs = [(tid0, seed, prog,
    variant, nsteps)]; the snapshot after step k of history tid0 gets trace id tid0 + k."""
    specs, q = args
    from harness import c06_locs as L, edits, histories, layouts
    from corpus.programs import PROGRAMS
    rec = edits.Recorder()
    traces, scripts = [], {}
    for tid0, seed, prog, v, nsteps in specs:
        src = layouts.variant(PROGRAMS[prog], v, seed)
        k = [0]

        def post(root, plan, o, ev, pre_src, tid0=tid0, seed=seed, prog=prog, v=v, nsteps=nsteps, k=k):
            k[0] += 1
            if ev.get('outcome') != 'ok':
                return
            tid = tid0 + k[0]
            rng = random.Random(seed * 7919 + tid)
            tr = L.snapshot_trace(tid, None, rng, q['random'], from_inner=q['inner'], max_spans=q['spans'],
                                  max_gaps=q['gaps'], root=root, meta={'kind': 'history', 'idx': prog, 'variant': v})
            if tr is None:
                return  # outside the domain: the source does not parse / the tree is out of sync (C01's business)
            traces.append(tr)
            scripts[tid] = {'driver': 'history', 'prog': prog, 'variant': v, 'seed': seed, 'nsteps': nsteps, 'tid0': tid0,
                            'step': k[0], 'q': q, 'src': root.src, 'plan': plan.describe(), 'pre_src': pre_src}

        try:
            histories.run_history(rec, tid0, seed, src, nsteps, hooks={'post': post})
        except Exception:  # noqa: BLE001  a crash of the edit driver is not C06's business
            pass
    return L.batch(traces), scripts


def _pool_map(fn, shards, nproc=14):
    shards = [s for s in shards if s[0]]
    if len(shards) <= 1:
        return [fn(s) for s in shards]
    with mp.get_context('fork').Pool(min(nproc, len(shards))) as pool:
        return pool.map(fn, shards)


def _validate_all(ctx, results, jvms=10):
    """Re-balance the recorded traces into at most `jvms` batches of similar size (JVM start costs ~2.5 CPU-s each) and
    validate them with TLC in parallel; returns [(batch, scripts, verdicts)]."""
    from harness import c06_locs as L
    traces, scripts = [], {}
    for b, s in results:
        traces += b['traces']
        scripts.update(s)
    if not traces:
        return []
    traces.sort(key=lambda t: -len(t['steps']) - 3 * (len(t['steps']) - len(t['nodes'])))
    n = max(1, min(jvms, len(traces) // 8 or 1))
    bins = [[] for _ in range(n)]
    load = [0] * n
    for t in traces:
        k = load.index(min(load))
        bins[k].append(t)
        load[k] += len(t['steps']) + 3 * (len(t['steps']) - len(t['nodes'])) + 20
    for b in bins:
        b.sort(key=lambda t: t['id'])

    def one(ts):
        b = L.batch(ts)
        try:
            return b, scripts, ctx.validate(b, module='LocTrace', heap='2g')
        except common.Machinery as e:
            if 'rc=-9' not in str(e) and 'rc=137' not in str(e):
                raise
            return b, scripts, ctx.validate(b, module='LocTrace', heap='2g')  # JVM killed from outside (memory pressure): once more

    with cf.ThreadPoolExecutor(max_workers=n) as ex:
        return list(ex.map(one, bins))


def _mb_flags(tr, rec):
    """multi-byte text before / inside / after the node on its lines (coverage statistic only)."""
    l = rec['loc']
    if not l:
        return ''
    text = tr['text']
    first, last = text[l[0]], text[l[2]]
    before = any(c > 127 for c in first[:l[1]])
    after = any(c > 127 for c in last[l[3]:])
    if l[0] == l[2]:
        inside = any(c > 127 for c in first[l[1]:l[3]])
    else:
        inside = any(c > 127 for c in first[l[1]:]) or any(c > 127 for c in last[:l[3]]) or \
            any(c > 127 for ln in text[l[0] + 1:l[2]] for c in ln)
    return ('b' if before else '') + ('i' if inside else '') + ('a' if after else '')


def _collect(ctx, validated):
    for batch, scripts, verd in validated:
        by_id = {t['id']: t for t in batch['traces']}
        for tid, v in verd.items():
            tr = by_id[tid]
            sc = scripts[tid]
            first = set()
            for step, clause, klass in sorted(v['bad']):
                if (clause, klass) in first:
                    continue  # one report per (clause, class) per snapshot
                first.add((clause, klass))
                ev = tr['steps'][step - 1]
                info = dict(ev)
                if ev['ev'] == 'node':
                    info['node'] = tr['nodes'][ev['n'] - 1]
                else:
                    for k in ('fin', 'cT', 'cF', 'cTop', 'lF', 'lT'):
                        a = ev.get(k, 0)
                        if isinstance(a, int) and a > 0:
                            info[k + '_node'] = {'k': tr['nodes'][a - 1]['k'], 'loc': tr['nodes'][a - 1]['loc']}
                rp = {k: sc[k] for k in sc if k != 'q'}
                rp.update(q=sc['q'], failing_step=step, event=info)
                ctx.violation(clause, klass, rp, detail=json.dumps(info, default=str)[:2000])
        for tr in batch['traces']:
            mb_src = any(c > 127 for ln in tr['text'] for c in ln)
            for ev in tr['steps']:
                ctx.evals += 1
                if ev['ev'] == 'node':
                    rec = tr['nodes'][ev['n'] - 1]
                    par = tr['nodes'][rec['par'] - 1]['k'] if rec['par'] else ''
                    npar = rec['pT'][4] if rec['pT'] else 0
                    ml = bool(rec['loc']) and rec['loc'][0] != rec['loc'][2]
                    ctx.distinct.add(('node', rec['k'], par, rec['fld'], npar, _mb_flags(tr, rec) if mb_src else '', ml,
                                      tr['meta'].get('kind') == 'history'))
                else:
                    r = ev['r']
                    ctx.distinct.add(('find', tr['nodes'][ev['frm'] - 1]['k'], (r[0], r[1]) == (r[2], r[3]), r[0] != r[2],
                                      tuple(tr['nodes'][a - 1]['k'] if isinstance(a, int) and a > 0 else a
                                            for a in (ev['fin'], ev['cT'], ev['cF'], ev['cTop'], ev['lF'], ev['lT']))))
        for tr in batch['traces'][:1]:
            nd = next((n for n in tr['nodes'] if n['k'] in ('comprehension', 'withitem', 'arguments') and n['loc']),
                      tr['nodes'][-1])
            fq = next((s for s in tr['steps'] if s['ev'] == 'find'), None)
            ctx.sample({'source': tr['meta'], 'nodes': len(tr['nodes']),
                        'node': {k: nd[k] for k in ('k', 'fld', 'cp', 'loc', 'bloc', 'at', 'pT', 'pF')},
                        'find': fq})


def run(ctx):
    from corpus.programs import PROGRAMS
    from harness import c06_locs as L, layouts
    ctx.rule = ('M: LocFindMC.tla (all well-formed span trees <= MaxN nodes on grid 0..G x all rectangles x all start '
                'nodes: brute-force find_* definitions have at most one answer and the loops of fst.py compute them). '
                'V: one TLC step per node (per-node clauses of LocLaws.tla) and per query rectangle (LocFind.tla over the '
                'recorded spans) for corpus + C06_EXTRA programs x 8 layout variants x 3 multi-byte mutators, and for trees '
                'after edit steps. distinct = distinct (node kind, parent kind, field, own-parentheses count, multi-byte '
                'before/inside/after flags, multi-line, after-edit) tuples for node steps and (start kind, empty rect, '
                'multi-line rect, kinds of the six answers) tuples for find steps')
    ctx.assumptions += [
        'tokenize / ast positions are the oracle; the recorder (harness/c06_locs.py) pairs CPython\'s parse of the text '
        'with the live tree and supplies children in grammar order (re-checked by clause OrderOracle) and witness token '
        'indices (re-checked by clause OracleTokenBoundary)',
        'f-string internals are judged like every other node (CPython 3.12 positions + FSTRING_* tokens); two named '
        'domain predicates of the spec, both computed from CPython positions: LocLaws!DebugText (the text Constant of a '
        'self-documenting field `{x = }` is positioned inside the field it precedes: exempt from sibling order, ends at '
        'the token after `=`) and LocTrace!DebugFieldFree (find_* rectangles that cut into such a pair are not judged); '
        'literal parts are delimited by the structural tokens around them (LocLaws!FStrPart), not by FSTRING_MIDDLE '
        'tokens, which drop the doubled brace of `{{` / `}}`',
        'empty rectangles and zero-length nodes on a rectangle end: find_contains_loc / find_loc only required to return '
        'some containing / inside / exact node (docstrings do not determine more; LocFindMC shows the ties)',
        'FSTView.loc is not covered',
    ]
    quick = ctx.quick
    ctx.model('LocFindMC', 'LocFindMC' if quick else 'LocFindMC_thorough', required=('AddNode', 'AddDeco', 'Ask'))

    import os
    os.environ.setdefault('JAVA_TOOL_OPTIONS', '-XX:ParallelGCThreads=2')  # many JVMs side by side (trace validation)
    q_fresh = {'random': 20, 'inner': 2, 'spans': 20, 'gaps': 20} if quick else \
              {'random': 500, 'inner': 6, 'spans': None, 'gaps': None}
    q_hist = {'random': 6, 'inner': 1, 'spans': 8, 'gaps': 6} if quick else {'random': 20, 'inner': 2, 'spans': 20, 'gaps': 20}
    rng = random.Random(ctx.seed * 1000003 + 6)
    items = []
    tid = 0
    nv = layouts.N_VARIANTS + N_MUT
    seeds = [rng.randrange(1 << 30) for _ in range(1 if quick else 2)]
    for si, seed in enumerate(seeds):
        for kind, n in (('corpus', len(PROGRAMS)), ('extra', len(L.C06_EXTRA))):
            for idx in range(n):
                for v in range(nv):
                    if si and v == 0:
                        continue  # variant 0 is the text as written: once
                    tid += 1
                    items.append((tid, kind, idx, v, seed + v))
    nsh = 14
    res = _pool_map(_snap_shard, [(items[k::nsh], q_fresh) for k in range(nsh)])

    n_hist, n_steps = (70, 5) if quick else (300, 8)
    specs = []
    base = 1_000_000
    for i in range(n_hist):
        specs.append((base + i * 100, rng.randrange(1 << 30), i % len(PROGRAMS), (i // len(PROGRAMS)) % layouts.N_VARIANTS,
                      n_steps))
    res += _pool_map(_hist_shard, [(specs[k::nsh], q_hist) for k in range(nsh)])

    validated = _validate_all(ctx, res, jvms=10)
    _collect(ctx, validated)
    ctx.extra['snapshots_fresh'] = sum(1 for b, s, v in validated for t in b['traces'] if t['meta'].get('kind') != 'history')
    ctx.extra['snapshots_after_edit'] = sum(1 for b, s, v in validated for t in b['traces'] if t['meta'].get('kind') == 'history')
    ctx.extra['node_steps'] = sum(len(t['nodes']) for b, s, v in validated for t in b['traces'])
    ctx.extra['find_steps'] = sum(len(t['steps']) - len(t['nodes']) for b, s, v in validated for t in b['traces'])
    ctx.extra['multibyte_snapshots'] = sum(1 for b, s, v in validated for t in b['traces']
                                           if any(c > 127 for ln in t['text'] for c in ln))
    ctx.require_clauses(NODE_CLAUSES + FIND_CLAUSES)
    if ctx.extra['snapshots_after_edit'] < (20 if quick else 200):
        raise common.Machinery('vacuity guard: too few after-edit snapshots')


def replay(ctx, path):
    with open(path) as f:
        rp = json.load(f)
    if rp['driver'] == 'snapshot':
        res = [_snap_shard(([(rp.get('tid', 1), rp['kind'], rp['idx'], rp['variant'], rp['seed'])], rp['q']))]
    else:
        res = [_hist_shard(([(rp['tid0'], rp['seed'], rp['prog'], rp['variant'], rp['nsteps'])], rp['q']))]
        want = rp['tid0'] + rp['step']
        b, s = res[0]
        b['traces'] = [t for t in b['traces'] if t['id'] == want]
    validated = _validate_all(ctx, res)
    _collect(ctx, validated)
    for batch, scripts, verd in validated:
        for tid, v in verd.items():
            print('--- source'); print(scripts[tid]['src'])
            print('verdict', tid, sorted(v['bad'])[:40])
    return ctx.finish()


SELFTEST_SRC = '''"é"; ä = [ö async for (ö) in (ü) if (ß)]
z = f((a), b) + c is  not d
with (a) as b: pass
def g(x=(1)): return lambda  y : y
'''


def selftest(ctx):
    """Binding demonstration: an accepted trace is corrupted in one recorded field at a time; TLC must reject exactly
    then and name the clause that the field belongs to."""
    import copy
    from harness import c06_locs as L
    rng = random.Random(7)
    base = L.snapshot_trace(1, SELFTEST_SRC, rng, 10, from_inner=0, max_spans=10, max_gaps=5)
    if base is None:
        raise common.Machinery('selftest source outside the domain')

    def node(tr, kind, nth=0):
        return [n for n in tr['nodes'] if n['k'] == kind][nth]

    def shift_loc(tr):
        n = node(tr, 'comprehension'); n['loc'][3] += 1          # one column too far (into the closing parenthesis)

    def byte_attr(tr):
        n = node(tr, 'ListComp'); n['at'][1] -= 1                # byte col_offset as if "é" and ä were one byte each

    def pars_n(tr):
        n = [x for x in tr['nodes'] if x['pT'] and x['pT'][4] == 1][0]; n['pT'][4] = 0

    def op_loc(tr):
        n = node(tr, 'IsNot'); n['loc'][3] -= 1                  # `is  no`

    def args_loc(tr):
        n = [x for x in tr['nodes'] if x['k'] == 'arguments' and tr['nodes'][x['par'] - 1]['k'] == 'Lambda'][0]
        n['loc'][1] -= 1                                         # includes the white space the delimiter owns

    def bloc(tr):
        n = node(tr, 'With'); n['bloc'][3] += 1

    def find_in(tr):
        q = [s for s in tr['steps'] if s['ev'] == 'find' and s['fin'] > 1][0]; q['fin'] -= 1

    def find_contains(tr):
        q = [s for s in tr['steps'] if s['ev'] == 'find' and s['cT'] > 1 and s['r'][:2] != s['r'][2:]][0]
        q['cT'] = tr['nodes'][q['cT'] - 1]['par']                # the parent instead of the lowest containing node

    cases = [('accepted', None, None), ('loc of a comprehension', shift_loc, 'Computed.comprehension'),
             ('byte col_offset', byte_attr, 'ByteCharAgree.attrs'), ('pars count', pars_n, 'Pars'),
             ('operator loc', op_loc, 'OpText'), ('lambda arguments loc', args_loc, 'Computed.arguments'),
             ('bloc', bloc, 'Bloc'), ('find_in_loc answer', find_in, 'Find.in'),
             ('find_contains_loc answer', find_contains, 'Find.contains')]
    traces = []
    for i, (name, fn, clause) in enumerate(cases):
        tr = copy.deepcopy(base)
        tr['id'] = i + 1
        if fn:
            fn(tr)
        traces.append(tr)
    verd = ctx.validate(L.batch(traces), module='LocTrace', heap='2g')
    ok = True
    for i, (name, fn, clause) in enumerate(cases):
        bad = sorted({c for (_, c, k) in verd[i + 1]['bad']})
        good = (bad == []) if clause is None else (clause in bad)
        ok &= good
        print(f'selftest {"ok " if good else "BAD"} corrupt {name!r}: expected {clause}, TLC rejected {bad}')
    return 0 if ok else 2
