"""Shared machinery of the C07 / C08 checks: one enumeration (every node, every slice of every list-like field of every
corpus program x layout variant), recorded by harness/c07_extract.py, judged by TLC against spec/ExtractTrace.tla."""

from __future__ import annotations

import concurrent.futures as cf
import json
import multiprocessing as mp
import os
import random
import threading

from checks import common
from harness import tlc

C07_CLAUSES = ('Undisturbed.text', 'Undisturbed.tree', 'Undisturbed.root', 'SelfContained.root', 'SelfContained.parses',
               'SelfContained.sync', 'Faithful.struct', 'Cut.pieceIsCopy', 'Cut.remainderIsDelete', 'Cut.sameOutcome',
               'Conserve.tokens', 'Conserve.comment')
C08_CLAUSES = ('RoundTrip.putAccepted', 'RoundTrip.root', 'RoundTrip.struct', 'RoundTrip.sync', 'ReplaceBy.accepted',
               'ReplaceBy.root', 'ReplaceBy.struct', 'ReplaceBy.sync', 'ReplaceBy.atomic', 'OwnSrc.parses',
               'OwnSrc.struct', 'Docstr.accepted', 'Docstr.readback', 'Docstr.sync', 'Docstr.denotes',
               'Docstr.onlyDocstring', 'Docstr.root', 'Comment.accepted', 'Comment.readback', 'Comment.sync',
               'Comment.onlyComment', 'Comment.root', 'Undisturbed.text', 'Undisturbed.tree', 'Undisturbed.root')


# -- (M)+(G): the model, and the embedding table it emits ------------------------------------------------------------------

def model_and_table(ctx, cfg):
    """Model-check ExtractMC (laws accept the reference extraction, reject the defective ones, round trip, totality of
    the embedding table) and compare the table TLC emits with the mirror the harness used."""
    from harness.c07_embed import EMBED
    path = os.path.join(tlc.scratch(), f'c07_table_{os.getpid()}_{threading.get_ident()}.json')
    os.environ['C07_TABLE'] = path
    ctx.model('ExtractMC', cfg, required=('Grow', 'DoCopy', 'DoCut', 'DoPutBack'))
    try:
        with open(path) as f:
            table = json.load(f)
    except (OSError, ValueError) as e:
        raise common.Machinery(f'embedding table not emitted by ExtractMC: {e}') from e
    if table != EMBED:
        diff = [k for k in set(table) | set(EMBED) if table.get(k) != EMBED.get(k)]
        raise common.Machinery(f'embedding table of spec/ExtractEmbed.tla differs from harness mirror for {sorted(diff)[:8]}')
    ctx.extra['embedding_table_kinds'] = len(table)
    ctx.extra['embedding_table_alternatives'] = sum(len(v) for v in table.values())


# -- (V): generation -------------------------------------------------------------------------------------------------------

def _shard(args):
    from harness import c07_extract
    return c07_extract.run_shard(args)


def trace_specs(ctx, what, rounds, base=0):
    """(trace id, program, variant, seed, what) for every corpus program x layout variant, `rounds` times with different
    seeds (each round draws other option sets / entry points / slices / texts)."""
    from corpus.programs import PROGRAMS as corpus
    from harness import layouts
    from harness.c07_programs import EXTRA
    PROGRAMS = list(corpus) + EXTRA
    rng = random.Random(ctx.seed * 7919 + 31 + len(what))
    specs = []
    tid = base
    for r in range(rounds):
        for v in range(layouts.N_VARIANTS):
            for p in range(len(PROGRAMS)):
                tid += 1
                specs.append((tid, p, v, rng.randrange(1 << 30), what))
    return specs


def generate(specs, conf, nproc=14):
    nshards = max(1, min(nproc, len(specs) // 4 or 1))
    order = list(specs)
    random.Random(12345).shuffle(order)  # balance program sizes across shards (deterministic)
    shards = [(k, order[k::nshards], conf) for k in range(nshards)]
    if nshards == 1:
        return [_shard(shards[0])]
    with mp.get_context('fork').Pool(nshards) as pool:
        return pool.map(_shard, shards)


def _strip(batch):
    """Drop replay-only payload (raw texts) before the batch goes to TLC; ASCII only."""
    for t in batch['traces']:
        for ev in t['steps']:
            ev.pop('raw', None)
            for k in ('res', 'copy', 'own'):
                if isinstance(ev.get(k), dict):
                    ev[k].pop('src', None)
            ev.pop('midSrc', None)
            ev.pop('exc', None)
            ev.pop('cutExc', None)
            ev.pop('delExc', None)
    return batch


def validate_all(ctx, results):
    out = []

    def one(bm):
        b, m = bm
        aux = {t['id']: [{k: ev.get(k) for k in ('raw', 'exc', 'cutExc', 'delExc', 'midSrc')} |
                         {'piece': (ev.get('res') or {}).get('src'), 'own': (ev.get('own') or {}).get('src')}
                         for ev in t['steps']] for t in b['traces']}
        return b, m, aux, ctx.validate(_strip(b), module='ExtractTrace')

    with cf.ThreadPoolExecutor(max_workers=min(7, len(results))) as ex:
        for r in ex.map(one, results):
            out.append(r)
    return out


def collect(ctx, validated, mine, conf):
    mine = set(mine)
    n = 0
    for batch, meta, aux, verd in validated:
        by_id = {t['id']: t for t in batch['traces']}
        for tid, v in verd.items():
            tr = by_id[tid]
            m = meta[tid]
            seen = set()
            for step, clause, klass in sorted(v['bad']):
                if clause not in mine or (clause, klass) in seen:
                    continue
                seen.add((clause, klass))
                ev = tr['steps'][step - 1]
                a = aux[tid][step - 1]
                info = m['infos'][step - 1]
                detail = json.dumps({'opts': ev.get('opts', {}).get('all'), 'exc': a.get('exc'), 'cutExc': a.get('cutExc'),
                                     'op': ev.get('op'), 'kind': ev.get('kind'), 'ekind': ev.get('ekind')}, default=str)
                ctx.violation(clause, klass, {
                    'driver': 'c07_extract', 'what': m['what'], 'prog': m['prog'], 'variant': m['variant'], 'seed': m['seed'],
                    'trace': tid, 'conf': conf, 'failing_step': step, 'info': info, 'src': m['src'],
                    'event': {k: ev[k] for k in ev if k not in ('post', 'delPost', 'mid', 'remBag', 'pieceBag')},
                    'aux': a,
                }, detail=detail)
        for tr in batch['traces']:
            for ev in tr['steps']:
                n += 1
                ctx.distinct.add((ev['call'], ev.get('op'), ev.get('kind'), ev.get('field') or
                                  (ev['path'][-1]['n'] if ev.get('path') else ''), bool(ev.get('slice')),
                                  ev.get('opts', {}).get('all', ev.get('tclass')), ev.get('outcome')))
        for tr in batch['traces'][:1]:
            for ev, a in list(zip(tr['steps'], aux[tr['id']]))[:2]:
                ctx.sample({'program': meta[tr['id']]['prog'], 'variant': meta[tr['id']]['variant'], 'call': ev['call'],
                            'op': ev.get('op'), 'kind': ev.get('kind'), 'path': ev.get('path'), 'field': ev.get('field'),
                            'start': ev.get('start'), 'stop': ev.get('stop'), 'opts': ev.get('opts', {}).get('all'),
                            'outcome': ev.get('outcome'), 'piece': a.get('piece'), 'text': a.get('raw')})
    ctx.evals += n
    return n


def replay(ctx, path, mine):
    with open(path) as f:
        rp = json.load(f)
    spec = (rp['trace'], rp['prog'], rp['variant'], rp['seed'], rp['what'])
    res = [_shard((0, [spec], rp['conf']))]
    validated = validate_all(ctx, res)
    collect(ctx, validated, mine, rp['conf'])
    for batch, meta, aux, verd in validated:
        for tid, v in verd.items():
            print('verdict', tid, sorted(v['bad']))
            for step, clause, klass in sorted(v['bad']):
                ev = batch['traces'][0]['steps'][step - 1]
                print('--- step', step, clause, klass)
                print(json.dumps({k: ev[k] for k in ev if k not in ('post', 'delPost', 'mid', 'remBag', 'pieceBag')},
                                 default=str)[:1500])
                print(json.dumps(aux[tid][step - 1], default=str)[:1500])
    print('--- source\n' + rp.get('src', ''))
    return ctx.finish()
