"""Shared machinery of the C07 / C08 checks: one enumeration (every node, every slice of every list-like field of every
corpus program x layout variant), recorded by harness/c07_extract.py, judged by TLC against spec/ExtractTrace.tla."""

from __future__ import annotations

import concurrent.futures as cf
import json
import multiprocessing as mp
import os
import random
import threading

from checks import common
from harness import tlc

C07_CLAUSES = ('Undisturbed.text', 'Undisturbed.tree', 'Undisturbed.root', 'SelfContained.root', 'SelfContained.parses',
               'SelfContained.sync', 'Faithful.struct', 'Cut.pieceIsCopy', 'Cut.remainderIsDelete', 'Cut.sameOutcome',
               'Conserve.tokens', 'Conserve.comment')
C08_CLAUSES = ('RoundTrip.putAccepted', 'RoundTrip.root', 'RoundTrip.struct', 'RoundTrip.sync', 'ReplaceBy.accepted',
               'ReplaceBy.root', 'ReplaceBy.struct', 'ReplaceBy.sync', 'ReplaceBy.atomic', 'OwnSrc.parses',
               'OwnSrc.struct', 'Docstr.accepted', 'Docstr.readback', 'Docstr.sync', 'Docstr.denotes',
               'Docstr.onlyDocstring', 'Docstr.root', 'Comment.accepted', 'Comment.readback', 'Comment.sync',
               'Comment.onlyComment', 'Comment.root', 'Undisturbed.text', 'Undisturbed.tree', 'Undisturbed.root')


# -- (M)+(G): the model, and the embedding table it emits ------------------------------------------------------------------

def model_and_table(ctx, cfg):
    """Model-check ExtractMC (laws accept the reference extraction, reject the defective ones, round trip, totality of
    the embedding table) and compare the table TLC emits with the mirror the harness used."""
    from harness.c07_embed import EMBED
    path = os.path.join(tlc.scratch(), f'c07_table_{os.getpid()}_{threading.get_ident()}.json')
    os.environ['C07_TABLE'] = path
    ctx.model('ExtractMC', cfg, required=('Grow', 'DoCopy', 'DoCut', 'DoPutBack'))
    try:
        with open(path) as f:
            table = json.load(f)
    except (OSError, ValueError) as e:
        raise common.Machinery(f'embedding table not emitted by ExtractMC: {e}') from e
    if table != EMBED:
        diff = [k for k in set(table) | set(EMBED) if table.get(k) != EMBED.get(k)]
        raise common.Machinery(f'embedding table of spec/ExtractEmbed.tla differs from harness mirror for {sorted(diff)[:8]}')
    ctx.extra['embedding_table_kinds'] = len(table)
    ctx.extra['embedding_table_alternatives'] = sum(len(v) for v in table.values())


# -- (V): generation -------------------------------------------------------------------------------------------------------

def _shard(args):
    from harness import c07_extract
    return c07_extract.run_shard(args)


# own mutators of harness/c07_layout.py on top of a shared layout: 100 + v = wide (multi-byte text), 200 + v = kwadj
# (keywords followed directly by an opener / quote / tab / continuation, closers followed directly by keywords;
# identifiers that begin with keywords), 300 + v = wrapbreak (redundant parentheses broken over lines) then kwadj
WIDE_QUICK = (100, 202, 300, 302)
WIDE_THOROUGH = (100, 101, 103, 200, 202, 208, 300, 302)


def trace_specs(ctx, what, rounds, base=0):
    """(trace id, program, variant, seed, what) for every corpus program x layout variant, `rounds` times with different
    seeds (each round draws other option sets / entry points / slices / texts)."""
    from corpus.programs import PROGRAMS as corpus
    from harness import layouts
    from harness.c07_programs import EXTRA
    PROGRAMS = list(corpus) + EXTRA
    rng = random.Random(ctx.seed * 7919 + 31 + len(what))
    specs = []
    tid = base
    for r in range(rounds):
        for v in list(range(layouts.N_VARIANTS)) + list(WIDE_QUICK if ctx.quick else WIDE_THOROUGH):
            for p in range(len(PROGRAMS)):
                tid += 1
                specs.append((tid, p, v, rng.randrange(1 << 30), what))
    return specs


def generate(specs, conf, nproc=14):
    nshards = max(1, min(nproc, len(specs) // 4 or 1))
    order = list(specs)
    random.Random(12345).shuffle(order)  # balance program sizes across shards (deterministic)
    shards = [(k, order[k::nshards], conf) for k in range(nshards)]
    if nshards == 1:
        return [_shard(shards[0])]
    with mp.get_context('fork').Pool(nshards) as pool:
        return pool.map(_shard, shards)


def _strip(batch):
    """Drop replay-only payload (raw texts) before the batch goes to TLC; ASCII only."""
    for t in batch['traces']:
        for ev in t['steps']:
            ev.pop('raw', None)
            for k in ('res', 'copy', 'own'):
                if isinstance(ev.get(k), dict):
                    ev[k].pop('src', None)
            ev.pop('midSrc', None)
            ev.pop('exc', None)
            ev.pop('cutExc', None)
            ev.pop('delExc', None)
    return batch


def validate_all(ctx, results):
    out = []

    def one(bm):
        b, m = bm
        aux = {t['id']: [{k: ev.get(k) for k in ('raw', 'exc', 'cutExc', 'delExc', 'midSrc')} |
                         {'piece': (ev.get('res') or {}).get('src'), 'own': (ev.get('own') or {}).get('src')}
                         for ev in t['steps']] for t in b['traces']}
        return b, m, aux, ctx.validate(_strip(b), module='ExtractTrace')

    with cf.ThreadPoolExecutor(max_workers=min(7, len(results))) as ex:
        for r in ex.map(one, results):
            out.append(r)
    return out


def collect(ctx, validated, mine, conf):
    mine = set(mine)
    n = 0
    for batch, meta, aux, verd in validated:
        by_id = {t['id']: t for t in batch['traces']}
        for tid, v in verd.items():
            tr = by_id[tid]
            m = meta[tid]
            seen = set()
            for step, clause, klass in sorted(v['bad']):
                if clause not in mine or (clause, klass) in seen:
                    continue
                seen.add((clause, klass))
                ev = tr['steps'][step - 1]
                a = aux[tid][step - 1]
                info = m['infos'][step - 1]
                detail = json.dumps({'opts': ev.get('opts', {}).get('all'), 'exc': a.get('exc'), 'cutExc': a.get('cutExc'),
                                     'op': ev.get('op'), 'kind': ev.get('kind'), 'ekind': ev.get('ekind'),
                                     'pieceEndsCont': (a.get('piece') or '').rstrip(' \t').endswith('\\\n')}, default=str)
                ctx.violation(clause, klass, {
                    'driver': 'c07_extract', 'what': m['what'], 'prog': m['prog'], 'variant': m['variant'], 'seed': m['seed'],
                    'trace': tid, 'conf': conf, 'failing_step': step, 'info': info, 'src': m['src'],
                    'event': {k: ev[k] for k in ev if k not in ('post', 'delPost', 'mid', 'remBag', 'pieceBag')},
                    'aux': a,
                }, detail=detail)
        for tr in batch['traces']:
            for ev in tr['steps']:
                n += 1
                ctx.distinct.add((ev['call'], ev.get('op'), ev.get('kind'), ev.get('field') or
                                  (ev['path'][-1]['n'] if ev.get('path') else ''), bool(ev.get('slice')),
                                  ev.get('opts', {}).get('all', ev.get('tclass')), ev.get('outcome')))
        for tr in batch['traces'][:1]:
            for ev, a in list(zip(tr['steps'], aux[tr['id']]))[:2]:
                ctx.sample({'program': meta[tr['id']]['prog'], 'variant': meta[tr['id']]['variant'], 'call': ev['call'],
                            'op': ev.get('op'), 'kind': ev.get('kind'), 'path': ev.get('path'), 'field': ev.get('field'),
                            'start': ev.get('start'), 'stop': ev.get('stop'), 'opts': ev.get('opts', {}).get('all'),
                            'outcome': ev.get('outcome'), 'piece': a.get('piece'), 'text': a.get('raw')})
    ctx.evals += n
    return n


def replay(ctx, path, mine):
    with open(path) as f:
        rp = json.load(f)
    spec = (rp['trace'], rp['prog'], rp['variant'], rp['seed'], rp['what'])
    res = [_shard((0, [spec], rp['conf']))]
    validated = validate_all(ctx, res)
    collect(ctx, validated, mine, rp['conf'])
    for batch, meta, aux, verd in validated:
        for tid, v in verd.items():
            print('verdict', tid, sorted(v['bad']))
            for step, clause, klass in sorted(v['bad']):
                ev = batch['traces'][0]['steps'][step - 1]
                print('--- step', step, clause, klass)
                print(json.dumps({k: ev[k] for k in ev if k not in ('post', 'delPost', 'mid', 'remBag', 'pieceBag')},
                                 default=str)[:1500])
                print(json.dumps(aux[tid][step - 1], default=str)[:1500])
    print('--- source\n' + rp.get('src', ''))
    return ctx.finish()


# -- binding demonstration (DESIGN 2.9a): corrupt one recorded field of an accepted trace -----------------------------------

def selftest(ctx, props=('C07', 'C08')):
    """Record a few traces, check TLC accepts them (modulo known findings), then corrupt single logged fields and require
    TLC to reject exactly the step touched, naming the clause that guards the field."""
    import copy as _copy
    conf = {'cases': 30, 'texts': 12, 'max_per_field': 6}
    specs = [(1, 3, 1, 11, 'c07'), (2, 7, 1, 12, 'c08'), (3, 1, 0, 13, 'texts')]
    batch, meta = _shard((0, specs, conf))
    batch = _strip(batch)
    base = ctx.validate(_copy.deepcopy(batch), module='ExtractTrace')
    by_id = {t['id']: t for t in batch['traces']}

    def first(tid, pred):
        for i, ev in enumerate(by_id[tid]['steps']):
            if pred(ev) and not any(s == i + 1 for s, _, _ in base[tid]['bad']):
                return i
        raise common.Machinery('selftest: no suitable event recorded')

    def other_text(t):
        return 1 if t != 1 else 2

    plans = []
    i = first(1, lambda e: e['call'] == 'extract' and e['outcome'] == 'ok')
    plans.append((1, i, 'Undisturbed.text', lambda e: e['post'].__setitem__('text', other_text(e['post']['text']))))
    i = first(1, lambda e: e['call'] == 'extract' and e['outcome'] == 'ok' and not e['slice'])
    plans.append((1, i, 'Faithful.struct', lambda e: e['res'].__setitem__('liveS', by_id[1]['init']['liveS'])))
    i = first(1, lambda e: e['call'] == 'extract' and e['outcome'] == 'ok' and e['res']['alt'] and not e['slice']
              and e['res']['kind'] not in ('Name', 'Constant'))
    plans.append((1, i, 'SelfContained.sync', lambda e: e['res'].__setitem__('embP', by_id[1]['init']['liveP'])))
    ids = by_id[1]['init']['bagIds']
    cidx = [k for k, t in enumerate(ids) if batch['ktab'][t - 1]['t'] == 'COMMENT']
    if cidx:
        i = first(1, lambda e: e['call'] == 'cut' and e['outcome'] == 'ok' and e['delOutcome'] == 'ok' and e['remBag']['ok']
                  and e['remBag']['v'][cidx[0]] > 0)
        plans.append((1, i, 'Conserve.comment', lambda e: e['remBag']['v'].__setitem__(cidx[0], e['remBag']['v'][cidx[0]] - 1)))
    i = first(1, lambda e: e['call'] == 'cut' and e['outcome'] == 'ok' and e['delOutcome'] == 'ok')
    plans.append((1, i, 'Cut.remainderIsDelete', lambda e: e['delPost'].__setitem__('text', other_text(e['delPost']['text']))))
    i = first(2, lambda e: e['call'] == 'cutput' and e['outcome'] == 'ok' and e['cutOutcome'] == 'ok')
    plans.append((2, i, 'RoundTrip.struct', lambda e: e['post'].__setitem__('liveS', e['mid']['liveS'])))
    i = first(2, lambda e: e['call'] == 'ownsrc' and e['own']['alt'])
    plans.append((2, i, 'OwnSrc.struct', lambda e: e['own'].__setitem__('embS', by_id[2]['init']['liveS'])))
    i = first(3, lambda e: e['call'] == 'put_docstr' and e['outcome'] == 'ok' and e['hasGot'])
    plans.append((3, i, 'Docstr.readback', lambda e: e.__setitem__('got', other_text(e['got']))))
    i = first(3, lambda e: e['call'] == 'put_line_comment' and e['outcome'] == 'ok' and e['hasGot'])
    plans.append((3, i, 'Comment.readback', lambda e: e.__setitem__('got', other_text(e['got']))))

    ok = True
    for tid, i, clause, corrupt in plans:
        b = _copy.deepcopy(batch)
        tr = [t for t in b['traces'] if t['id'] == tid][0]
        corrupt(tr['steps'][i])
        b['traces'] = [tr]
        v = ctx.validate(b, module='ExtractTrace')[tid]
        new = {(s, c) for s, c, _ in v['bad']} - {(s, c) for s, c, _ in base[tid]['bad']}
        good = (i + 1, clause) in new and all(s == i + 1 for s, _ in new)
        print(f'selftest: corrupt step {i + 1} of trace {tid} -> rejected clauses {sorted(new)} (expected {clause}): '
              f'{"ok" if good else "FAILED"}')
        ok = ok and good
    ctx.evals += len(plans)
    ctx.finish()
    return 0 if ok else 2
