"""C18 - substitution rewrites exactly the matched nodes with the filled-in template.

(M)  spec/TemplateMC.tla: the walk-driven algorithm of subn() (evolving tree, dirty set, count / loop / nested / on /
     back) against the declarative reference transformer spec/Template.tla!TemplateRel on all abstract trees within the
     constants; every terminal state is emitted as a row (case + expected result).
(G1) a seeded sample of those rows is concretised (A = List, B = Tuple) and replayed into the real pfst; the model's
     result is compared (by TLC, clauses Model.*) with the observed one, and the run is validated like any other trace.
(G2) spec/TemplateCases.tla generates pattern x template x settings; the concretiser (harness/c18_driver.py) applies
     them to corpus programs x layout variants.
(V)  every real subn() call is recorded (one event per substitution through the public callback parameters) and
     validated by TLC against spec/TemplateTrace.tla.
"""

from __future__ import annotations

import concurrent.futures as cf
import json
import multiprocessing as mp
import os
import random
import re
import threading

from checks import common

MINE = {'TemplateRel', 'Event.TemplateRel', 'Sync', 'Event.Sync', 'Identity', 'Counts.total', 'Counts.unique',
        'Counts.bounds', 'Counts.static', 'CarriedOut', 'OutsideTokens', 'OutsideLines', 'Event.OutsideTokens',
        'Event.OutsideLines', 'Event.Chain', 'Final.Chain', 'Event.MatchedNode', 'Terminates', 'Model.Result',
        'Model.Counts', 'UnknownEvent', 'Loop.Bounded', 'Loop.Complete', 'Nested.Exhaustive'}
HARNESS = {'RefAgree', 'Event.RefAgree'}     # spec vs. python reference disagreement = broken machinery, not pfst

_ROW = re.compile(r'<<"CASE", "([^"]*)", (\{[^}]*\}), "([^"]*)", (TRUE|FALSE), (\d+), (\d+), "(\w+)", (TRUE|FALSE), '
                  r'"([^"]*)", (\d+), (\d+)>>')


def parse_rows(out: str):
    rows = []
    for line in out.splitlines():
        if '\\"CASE\\"' not in line:
            continue
        m = _ROW.search(line.replace('\\"', '"'))
        if not m:
            raise common.Machinery('cannot parse model row: ' + line[:200])
        rows.append({'t0': m.group(1), 'pat': sorted(re.findall(r'"(\w+)"', m.group(2))), 'tmpl': m.group(3),
                     'nested': m.group(4) == 'TRUE', 'count': int(m.group(5)), 'loop': int(m.group(6)),
                     'on': m.group(7), 'back': m.group(8) == 'TRUE', 'exp': m.group(9), 'uniq': int(m.group(10)),
                     'total': int(m.group(11))})
    return rows


# ----------------------------------------------------------------------------------------------------------------------
# workers (fresh processes; they import pfst)

def _run_spec(rec, D, pats, spec):
    """spec -> (trace, info) | None.  spec kinds: 'cat' (catalogue case on a corpus program), 'abs' (model row)."""
    from harness import layouts
    PROGRAMS = D.programs()
    if spec['kind'] == 'cat':
        for prog in spec['progs']:       # first candidate program in which the pattern occurs
            src = layouts.variant(PROGRAMS[prog], spec['variant'], spec['lseed'])
            r = D.run_case(rec, spec['tid'], src, spec['p'], D.TEMPLATES[spec['t']], spec['cat'], spec['cfg'], pats,
                           repl_as_fst=spec.get('fst', False))
            if r is not None:
                spec['prog'] = prog
                return r
        return None
    row = spec['row']
    src = 'x = ' + D.conc(D.parse_enc(row['t0'])) + '\n'
    tmpl = D.conc(D.parse_enc(row['tmpl']))
    cfg = {'nested': row['nested'], 'count': row['count'], 'loop': row['loop'], 'on': row['on'], 'back': row['back'],
           'cb': True, 'docstr': True}
    r = D.run_case(rec, spec['tid'], src, 'abs', tmpl, 'expr', cfg, {'abs': lambda: D.abstract_pattern(row['pat'])})
    if r is None:
        return None
    tr, info = r
    import ast
    try:
        obs = D.abstract_of(ast.parse(info['post_src']).body[0].value)
    except (SyntaxError, IndexError, AttributeError):
        obs = '?'
    tr['steps'][-1].update(hasModel=True, gexp=row['exp'], gobs=obs, guniq=row['uniq'], gtotal=row['total'])
    info['model'] = row
    return tr, info


def _shard(args):
    shard_id, specs = args
    from harness import c18_driver as D
    rec = D.Recorder()
    pats = D.patterns()
    traces, infos = [], {}
    for spec in specs:
        try:
            r = _run_spec(rec, D, pats, spec)
        except Exception as e:  # noqa: BLE001  (driver failure is a machinery failure, reported by the parent)
            import traceback
            return {'error': f'{spec}: {e!r}\n{traceback.format_exc()[-1500:]}'}
        if r is None:
            continue
        tr, info = r
        tr['steps'][-1].setdefault('hasModel', False)
        for k, v in (('gexp', ''), ('gobs', ''), ('guniq', 0), ('gtotal', 0)):
            tr['steps'][-1].setdefault(k, v)
        traces.append(tr)
        infos[spec['tid']] = (spec, info)
    return {'batch': D.batch(rec, traces), 'infos': infos}


# ----------------------------------------------------------------------------------------------------------------------

def catalogue_specs(ctx, cases, n_target, base):
    """Seeded sample of the TLC-generated case table x corpus programs x layout variants; every (pattern, template) pair
    of the table is visited round-robin so that all slot position classes are exercised in every run."""
    from harness import layouts, c18_driver
    PROGRAMS = c18_driver.programs()
    rng = random.Random(ctx.seed * 7919 + 18)
    by_pair = {}
    for c in cases:
        by_pair.setdefault((c['p'], c['t']), []).append(c)
    pairs = sorted(by_pair)
    for p in pairs:
        by_pair[p].sort(key=lambda c: json.dumps(c['s'], sort_keys=True))
    specs = []
    # peel block: every loop>0 / on='enter' row of the table whose template replaces the match by one of its own parts,
    # on the program with several locations of different depth (finite loop: a fresh budget for every location)
    peel_prog = len(PROGRAMS) - 1
    plain = c18_driver.plain_param_programs()
    peel = [c for c in cases if (c['t'].startswith('e_peel_') or c['t'] == 's_unwrap_b') and c['s']['loop'] != 0
            and c['s']['on'] == 'enter' and c['s']['cb'] and c['s']['count'] == 0 and c['s']['docstr']]
    peel.sort(key=lambda c: (c['p'], c['t'], json.dumps(c['s'], sort_keys=True)))
    for rep in range(1 if ctx.quick else 6):
        for c in peel:
            specs.append({'kind': 'cat', 'tid': base + len(specs) + 1, 'p': c['p'], 't': c['t'], 'cat': c['cat'],
                          'cfg': c['s'], 'progs': [peel_prog], 'variant': rng.randrange(layouts.N_VARIANTS) if rep else 0,
                          'lseed': rng.randrange(1 << 20), 'fst': False})
    # focus block: slot classes whose interesting inputs are rare in the corpus get the program written for them, for
    # nested on/off (rows of the table with on='enter', no loop / count / back): same-operator and mixed BoolOps into
    # BoolOp templates (flattening, missing operand), generators into argument slots (parenthesisation of `yield`)
    def prog_with(marker):
        return next(i for i, p in enumerate(PROGRAMS) if marker in p)
    focus = [(lambda c: c['p'] == 'boolop2' and (c['t'].startswith('e_bool_') or c['t'] in ('e_log', 'e_peel_a')),
              prog_with('both = (p or q) and (r or s)')),
             (lambda c: (c['p'], c['t']) in (('expr_stmt', 's_expr_print'), ('assign1', 's_assign_wrap'), ('ret', 's_ret_wrap'),
                                             ('expr_stmt', 's_prepost'), ('if_', 's_try'), ('if_', 's_prepost')),
              prog_with('def gen(n):')),
             (lambda c: c['t'] in ('e_first_args', 'e_first_list', 'e_first_tuple', 'e_set_fr', 'e_call_first_rest', 'e_a0_args',
                                   'e_a0_wrap', 'e_a0_two', 's_for_chain', 's_if_check', 's_if_list', 's_for_list'),
              prog_with('p1 = [(1, 2), a, b]')),
             (lambda c: c['p'] in ('call_r0', 'class_b0', 'call_a0') and c['t'] in ('e_a0_args', 'e_a0_wrap', 's_class_rest'),
              prog_with('r7 = spread(p0, p1, sep=s, *tail)'))]
    plainrow = [c for c in cases if c['s']['loop'] == 0 and c['s']['on'] == 'enter' and c['s']['cb'] and c['s']['count'] == 0
                and c['s']['docstr'] and not c['s']['back']]
    plainrow.sort(key=lambda c: (c['p'], c['t'], c['s']['nested']))
    for sel, prog in focus:
        for c in plainrow:
            if sel(c):
                specs.append({'kind': 'cat', 'tid': base + len(specs) + 1, 'p': c['p'], 't': c['t'], 'cat': c['cat'],
                              'cfg': c['s'], 'progs': [prog], 'variant': 0, 'lseed': rng.randrange(1 << 20), 'fst': False})
    # nest block: slice-put templates (unwrap, body + extra statement) on compound statements whose body starts with a
    # statement of the same kind and has more after it, nested=True, every loop value, both directions
    nest_prog = prog_with('def nest(a, b, c):')
    nest = [c for c in cases if c['t'] in ('s_unwrap_b', 's_body_then', 's_before_body') and c['p'] in ('if_', 'while_', 'for_', 'with_')
            and c['s']['nested'] and c['s']['on'] == 'enter' and c['s']['count'] == 0 and c['s']['cb'] and c['s']['docstr']]
    nest.sort(key=lambda c: (c['p'], c['t'], json.dumps(c['s'], sort_keys=True)))
    for c in nest:
        specs.append({'kind': 'cat', 'tid': base + len(specs) + 1, 'p': c['p'], 't': c['t'], 'cat': c['cat'], 'cfg': c['s'],
                      'progs': [nest_prog], 'variant': 0, 'lseed': rng.randrange(1 << 20), 'fst': False})
    n_target += len(specs)
    i = 0
    while len(specs) < n_target:
        pair = pairs[i % len(pairs)]
        i += 1
        c = rng.choice(by_pair[pair])
        progs = rng.sample(range(len(PROGRAMS)), 8)
        if c['cat'] == 'arguments':      # the parameter-list slot is modelled for plain lists: prefer such programs
            progs = rng.sample(plain, min(2, len(plain))) + progs
        specs.append({'kind': 'cat', 'tid': base + len(specs) + 1, 'p': c['p'], 't': c['t'], 'cat': c['cat'],
                      'cfg': c['s'], 'progs': progs, 'variant': rng.randrange(layouts.N_VARIANTS),
                      'lseed': rng.randrange(1 << 20), 'fst': rng.random() < 0.15})
    return specs


def run_shards(specs, nproc):
    nsh = max(1, min(nproc, len(specs) // 10 or 1))
    shards = [(k, specs[k::nsh]) for k in range(nsh)]
    if nsh == 1:
        return [_shard(shards[0])]
    from concurrent.futures.process import BrokenProcessPool
    out = {}
    for attempt in range(3):      # a worker killed from outside (OOM killer) breaks the pool: redo the missing shards
        todo = [sh for sh in shards if sh[0] not in out]
        if not todo:
            break
        try:
            with cf.ProcessPoolExecutor(max_workers=len(todo), mp_context=mp.get_context('fork')) as ex:
                futs = {ex.submit(_shard, sh): sh[0] for sh in todo}
                for fu in cf.as_completed(futs):
                    out[futs[fu]] = fu.result()
        except BrokenProcessPool:
            continue
    if len(out) != len(shards):
        raise common.Machinery('driver processes were killed repeatedly')
    return [out[k] for k, _ in shards]


def _retry(fn, tries=3):
    """A TLC JVM killed from outside (SIGKILL, e.g. the kernel's OOM killer on a crowded machine) is retried; any other
    failure, and a third kill, is a machinery failure as usual."""
    for k in range(tries):
        try:
            return fn()
        except common.Machinery as e:
            if 'rc=-9' not in str(e) and 'rc=137' not in str(e) or k == tries - 1:
                raise
            import time
            time.sleep(5 * (k + 1))


def validate(ctx, results):
    out = []

    def one(r):
        return r, _retry(lambda: ctx.validate(r['batch'], module='TemplateTrace', cfg='TemplateTrace', heap='2g' if ctx.quick else '4g'))
    with cf.ThreadPoolExecutor(max_workers=5 if ctx.quick else 7) as ex:
        for r in ex.map(one, [r for r in results if r['batch']['traces']]):
            out.append(r)
    return out


def collect(ctx, validated):
    for res, verd in validated:
        by_id = {t['id']: t for t in res['batch']['traces']}
        for tid, v in verd.items():
            spec, info = res['infos'][tid]
            tr = by_id[tid]
            nsub = len(tr['steps']) - 1
            ctx.evals += len(tr['steps'])
            ctx.extra['substitutions'] = ctx.extra.get('substitutions', 0) + nsub
            ctx.extra.setdefault('outcomes', {})
            oc = info['outcome'] + ('/' + info['exc'] if info['exc'] else '')
            ctx.extra['outcomes'][oc] = ctx.extra['outcomes'].get(oc, 0) + 1
            if nsub or not info['cfg']['cb']:
                c = info['cfg']
                ctx.distinct.add((info['pattern'] if spec['kind'] == 'cat' else 'abs:' + ''.join(spec['row']['pat']),
                                  spec.get('t', info['template']), c['nested'], c['count'], c['loop'], c['on'], c['back'],
                                  c['cb'], info['static'], info['outcome']))
            first = {}
            for step, clause, klass in sorted(v['bad']):
                if clause in HARNESS:
                    raise common.Machinery(f'spec and python reference disagree ({clause}) on {spec} / {info["pre_src"]!r}')
                if clause not in MINE or clause in first:
                    continue
                first[clause] = step
                ctx.violation(clause, klass, {'spec': spec, 'failing_step': step, 'info': info},
                              detail=json.dumps({'pattern': info['pattern'], 'template': info['template'],
                                                 'cfg': info['cfg'], 'exc': info['exc']}))
            if nsub and len(ctx.samples) < 6 and (tid % 7 == 0):
                ctx.sample({'pattern': info['pattern'], 'template': info['template'], 'cfg': info['cfg'],
                            'matches_in_original': info['matches'], 'substitutions': nsub, 'counts': [info['uniq'], info['total']],
                            'static_mode': info['static'], 'program': spec.get('prog', 'abstract'),
                            'variant': spec.get('variant', 0)})


def run(ctx):
    ctx.rule = ('M: TemplateMC.tla - all abstract trees <= MaxNodes over 2 labels x 3 label-set patterns x all templates '
                '<= MaxTmpl nodes with whole-match / single-node / slice / missing slots x nested x count x loop x on x '
                'back: walk-driven algorithm = TemplateRel reference (static outermost / nested), TemplateRel functional, '
                'identity, counts, every step locally TemplateRel; plus the family "peel" (TemplateMC_peel.cfg: 2-3 chains of different '
                'depth under one root, peeling / relabelling / rebuilding templates, loop 2 and 3, up to 13 nodes). G1: a seeded sample of its terminal states replayed '
                'into pfst. G2: TemplateCases.tla generates (pattern, template, settings); applied to 41 corpus programs '
                'x 9 layouts, with a block of peeling rules (X + 0 -> X, not X -> X, [[X]] -> X, f(1)(2) -> f, a.b -> a, if-unwrap) under '
                'loop 2/3 on a program with locations of different depth. V: every subn() call validated by TLC against '
                'TemplateTrace.tla, one event per substitution (incl. Loop.Complete: a location is re-substituted until its loop '
                'budget is used up or it stops matching; Nested.Exhaustive: with nested=True and a template that brings no matchable '
                'node of its own nothing that matches may be left, for loop in {0, 2, 3, True}). '
                'distinct = distinct (pattern, template, nested, count, loop, on, back, callbacks, static mode, outcome) '
                'tuples with at least one substitution performed')
    ctx.assumptions += ['projection (harness/proj.py) trusted; match sets and captures are taken from pfst search/match '
                        '(their correctness is C17); validity of the requested result from ast.unparse + compile of the '
                        'pure-AST reference (harness/c18_ref.py), which TLC cross-checks against Template.tla (RefAgree)',
                        'domain: slots receive captures of the class their position accepts (Template!SlotsFit), matches '
                        'inside f-strings and match patterns excluded, nested+loop divergence (documented hazard) excluded; '
                        'function `arguments` beyond plain parameter lists, ExceptHandler / match_case / comprehension slot forms, string-interior '
                        'slots, __FSO_/__FSS_ overrides are not covered']
    quick = ctx.quick
    n_cat, n_abs = (650, 220) if quick else (15000, 4000)

    os.environ['OUT_FILE'] = os.path.join(__import__('harness.tlc', fromlist=['x']).scratch(), 'c18cases.json')
    ctx.model('TemplateCases', 'TemplateCases', workers=1, coverage=False, heap='1g')
    with open(os.environ['OUT_FILE']) as f:
        cases = json.load(f)
    from harness import c18_driver as D
    missing = {c['p'] for c in cases} - set(D.patterns()) | {c['t'] for c in cases} - set(D.TEMPLATES)
    if missing:
        raise common.Machinery(f'case table ids without concretisation: {sorted(missing)}')
    ctx.extra['case_table'] = {'rows': len(cases), 'pattern_template_pairs': len({(c['p'], c['t']) for c in cases})}

    mc = {}
    acts = ('Pick', 'Descend', 'SkipNode', 'Subst', 'LoopSubst', 'Stop')

    def model(key, cfg, workers, heap):
        try:
            mc[key] = _retry(lambda: ctx.model('TemplateMC', cfg, required=acts, workers=workers, heap=heap, timeout=3000))
        except BaseException as e:  # noqa: BLE001
            mc['e'] = e
    ths = [threading.Thread(target=model, args=('all', 'TemplateMC' if quick else 'TemplateMC_thorough',
                                                8 if quick else 12, '3g' if quick else '6g')),
           threading.Thread(target=model, args=('peel', 'TemplateMC_peel', 4, '2g'))]
    for th in ths:
        th.start()

    results = run_shards(catalogue_specs(ctx, cases, n_cat, 0), nproc=6 if quick else 14)
    for th in ths:
        th.join()
    if 'e' in mc:
        raise mc['e']
    rng = random.Random(ctx.seed * 104729 + 5)
    sample = []
    for key, n, least in (('all', n_abs, 1000), ('peel', 100 if quick else 2500, 1000)):
        rows = parse_rows(mc[key]['out'])
        if len(rows) < least:
            raise common.Machinery(f'only {len(rows)} rows emitted by TemplateMC ({key})')
        ctx.extra['model_rows_' + key] = len(rows)
        live = [r for r in rows if r['total'] > 0]
        sample += rng.sample(live, min(n, len(live)))
    results += run_shards([{'kind': 'abs', 'tid': 10_000_000 + i, 'row': r} for i, r in enumerate(sample)],
                          nproc=4 if quick else 14)
    for r in results:
        if 'error' in r:
            raise common.Machinery('driver failed: ' + r['error'])
    collect(ctx, validate(ctx, results))
    ctx.require_clauses(['TemplateRel', 'Event.TemplateRel', 'Sync', 'Identity', 'Counts.total', 'Counts.static',
                         'CarriedOut', 'Event.OutsideTokens', 'Event.OutsideLines', 'OutsideTokens', 'Model.Result',
                         'Loop.Complete', 'Nested.Exhaustive'])
    if ctx.extra.get('substitutions', 0) < (1000 if quick else 15000):
        raise common.Machinery(f'vacuity guard: only {ctx.extra.get("substitutions", 0)} substitutions performed')


def replay(ctx, path):
    with open(path) as f:
        rp = json.load(f)
    spec = dict(rp['spec'], tid=1)
    if 'prog' in spec:
        spec['progs'] = [spec['prog']]
    res = _shard((0, [spec]))
    if 'error' in res:
        raise common.Machinery(res['error'])
    val = validate(ctx, [res])
    collect(ctx, val)
    for r, verd in val:
        for tid, v in verd.items():
            info = r['infos'][tid][1]
            print('pattern', info['pattern'], 'template', repr(info['template']), 'cfg', info['cfg'])
            print(info['pre_src'])
            print('=>', info['outcome'], info['exc'], 'counts', info['uniq'], info['total'])
            print(info['post_src'])
            print('verdict', sorted(v['bad']))
    return ctx.finish()


def selftest(ctx):
    """Binding demonstration (DESIGN 2.9a): corrupt one recorded field of accepted traces; TLC must reject each corrupted
    trace and name the clause that the corrupted field belongs to, and keep accepting the untouched ones."""
    import copy
    cfg = {'nested': False, 'count': 0, 'loop': 0, 'on': 'enter', 'back': False, 'cb': True, 'docstr': True}
    specs = [{'kind': 'cat', 'tid': i + 1, 'p': p, 't': t, 'cat': c, 'cfg': cfg, 'progs': list(range(40)), 'variant': 0,
              'lseed': 1} for i, (p, t, c) in enumerate([('call', 'e_call', 'expr'), ('if_', 's_if_swap', 'stmt'),
                                                        ('binop', 'e_swap_lr', 'expr'), ('ret', 's_try', 'stmt')])]
    res = _shard((0, specs))
    if 'error' in res:
        raise common.Machinery(res['error'])
    base = res['batch']
    clean = _retry(lambda: ctx.validate(base, module='TemplateTrace', cfg='TemplateTrace', heap='2g'))
    if any(v['bad'] for v in clean.values()):
        raise common.Machinery(f'selftest: uncorrupted traces rejected: {clean}')

    def corrupt(fn):
        b = copy.deepcopy(base)
        fn(b['traces'])
        return b

    def c_tree(trs):       # claim that the call changed nothing: final live tree := initial live tree
        d = trs[0]['steps'][-1]
        d['post']['liveS'], d['post']['liveP'] = trs[0]['init']['liveS'], trs[0]['init']['liveP']

    def c_count(trs):      # one substitution more than performed
        trs[1]['steps'][-1]['total'] += 1

    def c_token(trs):      # a token before the first substituted node differs after the event
        e = trs[2]['steps'][0]
        e['post']['toks'][0][0] += 1

    def c_line(trs):       # the last line of the file differs after the event although the node is far above
        e = trs[3]['steps'][0]
        e['post']['lines'][-1][0] += 1
        for st in trs[3]['steps'][1:]:
            if 'pre' in st:
                st['pre']['lines'][-1][0] += 1

    def c_capture(trs):    # a capture path of the first event points to another node
        e = trs[2]['steps'][0]
        cap = e['m']['caps'][0]
        cap['el'][0][0]['p'] = e['m']['caps'][1]['el'][0][0]['p']

    expect = [('tree', c_tree, 1, {'TemplateRel', 'Final.Chain'}), ('count', c_count, 2, {'Counts.total', 'Counts.static'}),
              ('token', c_token, 3, {'Event.OutsideTokens'}), ('line', c_line, 4, {'Event.OutsideLines'}),
              ('capture', c_capture, 3, {'Event.TemplateRel', 'Event.RefAgree'})]
    ok = True
    for name, fn, tid, clauses in expect:
        verd = _retry(lambda: ctx.validate(corrupt(fn), module='TemplateTrace', cfg='TemplateTrace', heap='2g'))
        got = {c for _, c, _ in verd[tid]['bad']}
        others = {t: v['bad'] for t, v in verd.items() if t != tid and v['bad']}
        good = clauses <= got and not others
        ok &= good
        print(f'selftest corrupt {name}: trace {tid} rejected with {sorted(got)} (expected at least {sorted(clauses)}); '
              f'other traces {"clean" if not others else others} -> {"OK" if good else "FAILED"}')
    ctx.evals += len(expect)
    if not ok:
        raise common.Machinery('selftest failed')
    print('selftest passed')
    return 0
