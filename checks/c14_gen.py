"""C14, direction (G) spec -> code.

TLC (spec/WalkGenCases.tla) computes for every ordered tree <= MaxN nodes and every filter set F the answer Walk.tla
prescribes for every walk parameter combination from every start node and for every navigation call.  Each abstract
tree is concretised as real source in three shapes; abstract node x is "in F" iff its concrete node has the filter kind:

  display : in F -> List  `[c1, c2]`          not in F -> Tuple `(c1, c2,)`          all=ast.List
  call    : in F -> Call  `f(c1, k1=c2, *c3)` not in F -> List  `[c1, c2]`           all={ast.Call}  (children hang below
            keyword / Starred wrappers and positional-after-keyword arguments exercise the Call ordering)
  block   : in F -> `if t:` block (last child in `else:`)   not in F -> `while t:` block   all=(ast.If,)

The concrete node of abstract x is found through CPython's own parse (container nodes sorted by start position = the
pre-order numbering of the model), the live pfst node through its child path (harness/c14_rec.Live).
The comparison below is equality with the TLC-computed table; nothing else is decided here.
"""

from __future__ import annotations

import ast
import concurrent.futures as cf
import json
import os

from checks import common
from harness import tlc

SHAPES = ('display', 'call', 'block')


def gen_table(ctx, maxn, parts):
    """Run TLC on WalkGenCases in `parts` slices; returns the rows."""
    d = tlc.scratch()

    def one(k):
        cfg = os.path.join(d, f'WalkGenCases_{maxn}_{k}.cfg')
        out = os.path.join(d, f'walkgen_{maxn}_{k}.json')
        with open(cfg, 'w') as f:
            f.write(f'CONSTANTS\n  MaxN = {maxn}\n  Part = {k}\n  Parts = {parts}\n')
        r = tlc.run_model('WalkGenCases', cfg, workers=1, env={'OUT_FILE': out}, heap='1g', timeout=1200)
        if r['violated']:
            raise common.Machinery(f'WalkGenCases: {r["violated"]}')
        with open(out) as f:
            return json.load(f), r['wall_s']

    rows, wall = [], 0
    try:
        with cf.ThreadPoolExecutor(max_workers=parts) as ex:
            for rs, w in ex.map(one, range(parts)):
                rows += rs
                wall = max(wall, w)
    except tlc.TLCError as e:
        raise common.Machinery(str(e)) from e
    ctx.models.append({'module': 'WalkGenCases', 'kind': 'table-generation', 'MaxN': maxn, 'rows': len(rows),
                       'wall_s': wall})
    return rows


# ----------------------------------------------------------------------------------------------------------------------
# concretisation

def _kids(row):
    n = row['n']
    kids = {x: [] for x in range(1, n + 1)}
    for x in range(2, n + 1):
        kids[row['par'][x - 1]].append(x)
    return kids


def concretise(row, shape):
    """(source, kinds of abstract nodes, filter argument factory)."""
    kids = _kids(row)
    inf = row['inF']

    if shape == 'display':
        def r(x):
            cs = [r(c) for c in kids[x]]
            if inf[x - 1]:
                return '[' + ', '.join(cs) + ']'
            return '(' + ''.join(c + ', ' for c in cs).rstrip() + ')' if cs else '()'
        return 'v = ' + r(1) + '\n', ('List', 'Tuple')

    if shape == 'call':
        def r(x):
            cs = [r(c) for c in kids[x]]
            if not inf[x - 1]:
                return '[' + ', '.join(cs) + ']'
            parts, kw = [], False
            for j, c in enumerate(cs):
                if j % 2 == 1:
                    parts.append(f'k{j}={c}')
                    kw = True
                else:
                    parts.append(('*' if kw else '') + c)
            return 'f(' + ', '.join(parts) + ')'
        return 'v = ' + r(1) + '\n', ('Call', 'List')

    def r(x, ind):
        cs = kids[x]
        pad = '    ' * ind
        if inf[x - 1]:
            body, orelse = (cs[:-1], cs[-1:]) if len(cs) >= 2 else (cs, [])
            s = f'{pad}if t{x}:\n' + (''.join(r(c, ind + 1) for c in body) or f'{pad}    pass\n')
            if orelse:
                s += f'{pad}else:\n{pad}    z = 0\n' + ''.join(r(c, ind + 1) for c in orelse)
            return s
        return f'{pad}while t{x}:\n' + (''.join(r(c, ind + 1) for c in cs) or f'{pad}    pass\n')
    return r(1, 0), ('If', 'While')


def _filter_arg(shape):
    return {'display': ast.List, 'call': {ast.Call}, 'block': (ast.If,)}[shape]


def run_case(row, shape):
    """Replay one abstract case into pfst; returns list of (what, expected, observed) mismatches and #comparisons."""
    from fst import FST
    from harness import c14_rec

    src, kinds = concretise(row, shape)
    o = c14_rec.Oracle(src, 'exec')
    root = FST(src, 'exec')
    lv = c14_rec.Live(o, root.a)
    cont = sorted((x for x in range(1, o.n + 1) if o.kind[x - 1] in kinds and o.pos[x - 1]),
                  key=lambda x: tuple(o.pos[x - 1][:2]))
    if len(cont) != row['n']:
        raise common.Machinery(f'concretisation of {row["par"]} as {shape} has {len(cont)} container nodes')
    abs_of = {oid: i + 1 for i, oid in enumerate(cont)}
    # the concretisation itself is validated against the model with CPython's tree only
    for i, oid in enumerate(cont):
        p = o.par[oid - 1]
        while p and p not in abs_of:
            p = o.par[p - 1]
        if (abs_of.get(p, 0)) != row['par'][i]:
            raise common.Machinery(f'concretisation of {row["par"]} as {shape}: wrong parent for node {i + 1}')
        if (o.kind[oid - 1] == kinds[0]) != row['inF'][i]:
            raise common.Machinery('concretisation: filter kind mismatch')

    def A(f):
        if f is None or f is False:
            return 0
        return abs_of.get(lv.nid(f), -1)

    fs = {i + 1: lv.fst(oid) for i, oid in enumerate(cont)}
    arg = _filter_arg(shape)
    bad, n = [], 0
    for w in row['walks']:
        f = fs[w['x']]
        seq, lvs = [], []
        try:
            for y in f.walk(arg, w['on'], self_=w['self'], recurse=w['rec'], back=w['back']):
                if w['on'] == 'both':
                    seq.append(A(y[0]))
                    lvs.append(bool(y[1]))
                else:
                    seq.append(A(y))
                    lvs.append(w['on'] == 'leave')
        except Exception:  # noqa: BLE001 - a raising traversal call is an observation (never equal to the table)
            seq.append(-2)
            lvs.append(False)
        n += 1
        if w['rec'] or shape in ('display', 'block'):
            # recurse=False reaches the *concrete* children only: in the call / block shapes abstract children hang
            # below wrappers, so only the display / block shapes (abstract children = direct children) are comparable there
            if seq != w['seq'] or lvs != w['lv']:
                bad.append((f'walk/{w["on"]}/{"back" if w["back"] else "fwd"}/{"rec" if w["rec"] else "norec"}/'
                            f'{"self" if w["self"] else "noself"}/{"selfpass" if row["inF"][w["x"] - 1] else "selffail"}',
                            {'x': w['x'], 'seq': w['seq'], 'lv': w['lv']}, {'seq': seq, 'lv': lvs}))
    top = fs[1]
    for x in range(1, row['n'] + 1):
        f = fs[x]
        def C(fn, *a, **k):
            try:
                return A(fn(*a, **k))
            except Exception:  # noqa: BLE001
                return -2

        obs = {'sf': C(f.step_fwd, arg), 'sfn': C(f.step_fwd, arg, False), 'sb': C(f.step_back, arg),
               'sbn': C(f.step_back, arg, False),
               'sft': C(f.step_fwd, arg, top=top), 'sbt': C(f.step_back, arg, top=top)}
        if shape in ('display', 'block'):
            obs.update(next=C(f.next, arg), prev=C(f.prev, arg), first=C(f.first_child, arg),
                       last=C(f.last_child, arg))
        for k, v in obs.items():
            exp = row[k][x - 1]
            # (the model's tree ends at the abstract root; the real tree continues above it with Assign / Module / the
            # target Name, none of which has the filter kind, so an expected None stays None)
            n += 1
            if v != exp:
                bad.append((f'nav/{k}', {'x': x, 'want': exp}, {'got': v}))
    return src, bad, n


def _work(args):
    rows, = args
    out = []
    for i, row in rows:
        for shape in SHAPES:
            src, bad, n = run_case(row, shape)
            out.append((i, shape, src, bad, n))
    return out


def report(ctx, row, shape, src, bad, percls):
    """Turn the mismatches of one replayed case into violations (class = shape + call class)."""
    seen = set()
    for what, exp, obs in bad:
        if what in seen:
            continue
        seen.add(what)
        clause, klass = 'Gen.' + ('WalkEqSpec' if what.startswith('walk/') else 'NavEqSpec'), f'gen/{shape}/{what}'
        if ctx.known(clause, klass) is None:
            percls[clause, klass] = percls.get((clause, klass), 0) + 1
            if percls[clause, klass] > 2:   # two replay files per case class are enough
                continue
        ctx.violation(clause, klass,
                      {'driver': 'c14_gen', 'shape': shape, 'row': {k: row[k] for k in ('n', 'par', 'inF')},
                       'src': src, 'expected': exp, 'observed': obs})


def run(ctx):
    import multiprocessing as mp
    maxn, parts = (5, 8)
    rows = gen_table(ctx, maxn, parts)
    want = {4: 102, 5: 550}[maxn]
    if len(rows) != want:
        raise common.Machinery(f'WalkGenCases produced {len(rows)} rows, expected {want}')
    idx = list(enumerate(rows))
    nproc = 10
    shards = [(idx[k::nproc],) for k in range(nproc)]
    with mp.get_context('spawn').Pool(nproc) as pool:   # spawn: this runs in a thread next to the (V) pipeline
        res = pool.map(_work, shards)
    cases = 0
    percls = {}
    for r in res:
        for i, shape, src, bad, n in r:
            row = rows[i]
            cases += 1
            ctx.evals += n
            ctx.distinct.add(('gen', shape, row['n'], tuple(row['par']), tuple(row['inF'])))
            report(ctx, row, shape, src, bad, percls)
    ctx.extra['gen_cases'] = cases
    ctx.extra['gen_rows'] = len(rows)
    ctx.clause_counts['Gen.WalkEqSpec'] = cases
    ctx.clause_counts['Gen.NavEqSpec'] = cases
    if rows:
        r0 = next(r for r in rows if r['n'] == maxn and sum(r['inF']) == 3)
        ctx.sample({'gen_case': {k: r0[k] for k in ('n', 'par', 'inF')},
                    'sources': {s: concretise(r0, s)[0] for s in SHAPES}})


def replay(ctx, rp):
    rows = gen_table(ctx, rp['row']['n'], 1)
    row = next(r for r in rows if r['par'] == rp['row']['par'] and r['inF'] == rp['row']['inF'])
    src, bad, n = run_case(row, rp['shape'])
    print(src)
    for b in bad[:20]:
        print('MISMATCH', b)
    report(ctx, row, rp['shape'], src, bad, {})
    ctx.states += 1
    ctx.transitions += 1
    return ctx.finish()
